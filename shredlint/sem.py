"""A8: structured evaluation.

A path-sensitive, interprocedural tabulation of a function's behaviour that does
not depend on how the source spells it:

  * in-crate callees with one static target, closures and function items handed
    to the combinators below are evaluated in place (bounded depth, no recursion);
  * the Option / Result / Iterator combinators of the standard library that shred
    uses are given their documented meaning (`MODELS`), so `x.map(f)` and
    `match x { Some(v) => Some(f(v)), None => None }` tabulate the same;
  * loops - written with `for`, `while`, `loop`, or hidden in `filter(..).fold(..)`,
    `map(..).find(..)`, `any(..)` - become Loop objects: the traversed source, the
    loop-carried variables, and the finite table of ways one iteration can go
    (continue / break / return / diverge, with conditions, effects and updates).

Nothing is executed and no solver is used: conditions are opaque terms, and the
result is the finite set of paths with their branch decisions.  Terms are those
of terms.py with call results named by *site* ((frame id, bb[, tag])):

  ('call', site, args)      ('elem', loop_id)       ('iternext', loop_id)
  ('lvar', loop_id, key)    ('lexit', loop_id, key) ('cellref', key)
  ('discr', t)              ('variant_of', name, agg)
"""
import sys

from .cfg import Cfg
from .facts import Callee
from .paths import EXTERNAL_VARIANTS, TooManyPaths, NotLoopFree

sys.setrecursionlimit(20000)

MAX_ENDS = 4096
MAX_DEPTH = 10

OPTION = "std::option::Option"
RESULT = "std::result::Result"
CONTROL = "std::ops::ControlFlow"
ITER_TRAITS = ("std::iter::Iterator", "core::iter::Iterator")
FN_TRAITS = ("std::ops::FnOnce", "std::ops::FnMut", "std::ops::Fn", "core::ops::FnOnce", "core::ops::FnMut", "core::ops::Fn")
SCALARS = set(["usize", "u8", "u16", "u32", "u64", "u128", "isize", "i8", "i16", "i32", "i64", "i128", "bool", "char"])

PURE_OBSERVERS = set(["is_empty", "len"])
PURE_CONSTANTS = {"of": ("std::any::TypeId", "core::any::TypeId"), "new": ("shred::world::ResourceId",)}

NONE = ("agg", "adt", OPTION + "::None", (), ())
UNIT = ("agg", "tuple", "tuple", (), ())


def some(v):
    return ("agg", "adt", OPTION + "::Some", (v,), ("0",))


def mk_variant(adt, name, ops):
    return ("agg", "adt", adt + "::" + name, tuple(ops), tuple(str(i) for i in range(len(ops))))


def ty_head(ty):
    ty = ty.strip()
    while ty.startswith("&"):
        ty = ty[1:].lstrip()
        if ty.startswith("mut "):
            ty = ty[4:]
        if ty.startswith("'"):
            ty = ty.split(" ", 1)[1] if " " in ty else ty
    i = ty.find("<")
    return ty if i < 0 else ty[:i]


class Path(object):
    __slots__ = ("conds", "events", "narrow")

    def __init__(self, conds=None, events=None, narrow=None):
        self.conds = conds if conds is not None else []      # (atom, value, variant name or None, site)
        self.events = events if events is not None else []   # ('call', site, callee, args, value) | ('store', site, place, value) | ('loop', Loop, idx)
        self.narrow = narrow if narrow is not None else {}   # ('discr', t) -> frozenset of variant names still possible

    def copy(self):
        return Path(list(self.conds), list(self.events), dict(self.narrow))

    # ---- queries used by rules
    def variant(self, t):
        """Name of the variant `t` is known to be on this path ('A|B' if several remain), None if never examined."""
        n = self.narrow.get(("discr", t))
        if n is None:
            return None
        return "|".join(sorted(n))

    def value(self, atom):
        for (ct, cv, cn, cs) in self.conds:
            if ct == atom:
                return cv
        return None

    def calls(self, pred=None):
        return [e for e in self.events if e[0] == "call" and (pred is None or pred(e[2]))]

    def loops(self):
        return [(e[1], e[2]) for e in self.events if e[0] == "loop"]


class Iter(object):
    """One way an iteration of a loop can go."""
    __slots__ = ("path", "end", "updates", "ret", "target", "env")

    def __init__(self, path, end, updates, ret=None, target=None, env=None):
        self.path = path
        self.end = end          # continue | done | break | return | diverge | unreachable
        self.updates = updates  # carried key -> term at the end of the iteration
        self.ret = ret
        self.target = target
        self.env = env

    @property
    def conds(self):
        return self.path.conds

    @property
    def events(self):
        return self.path.events


PART = "\u00a7part"
LITERAL_SAFE = frozenset(["into_iter", "iter", "len", "is_empty", "as_slice", "deref", "as_ref", "borrow", "clone", "to_vec", "contains", "first", "last", "get"])
UNROLL_MAX = 32     # longest literal list a loop over it is written out for
UNROLL_WAYS = 64    # most ways through a written-out loop


def _part_of(v, kp, root):
    """Component of the value `v` of carried root key `root` that the (possibly nested) part key `kp` names."""
    if kp == root:
        return v
    inner = _part_of(v, kp[1], root)
    if inner is None or not (isinstance(inner, tuple) and inner and inner[0] == "agg" and kp[2] < len(inner[3])):
        return None
    return inner[3][kp[2]]


def _agg_shape(v):
    if isinstance(v, tuple) and v and v[0] == "agg" and v[1] in ("tuple", "adt") and v[3]:
        return (v[1], v[2], len(v[3]))
    return None


class Loop(object):
    def __init__(self, lid, site, kind):
        self.id = lid
        self.site = site
        self.kind = kind        # for | counter | while | model:<name>
        self.source = None      # term of the iterator / collection that is traversed (after peeling map/filter)
        self.raw_source = None
        self.iter_ty = None
        self.elem = None        # term that stands for the current element inside `iters`
        self.carried = {}       # key -> initial term
        self.iters = []
        self.stages = []        # lazy adaptors peeled off the source: (name, callable term)
        self.enumerated = False
        self.counter_key = None
        self.shapes = {}        # carried key (or part of one) -> the aggregate it is split into, component by component
        self.split_key = None   # carried key of the slice cursor, for a loop that peels a slice with split_first(_mut)
        self.literal = None     # the elements, when the loop runs over a list written out in the function ([a, b] / vec![a, b])
        self.head_site = None   # site of the `next` call that starts an iteration

    def symbolic(self, tag, kp):
        """The term for carried key `kp` at the loop head ('lvar') or after the loop ('lexit'); a key whose value is a
        tuple / record on every way round the loop is that aggregate of its separately carried components."""
        sh = self.shapes.get(kp)
        if sh is None:
            return (tag, self.id, kp)
        return sh[:3] + (tuple(self.symbolic(tag, (PART, kp, i)) for i in range(len(sh[3]))),) + sh[4:]

    def leaves(self, kp):
        sh = self.shapes.get(kp)
        if sh is None:
            return [kp]
        return [x for i in range(len(sh[3])) for x in self.leaves((PART, kp, i))]

    def roots(self):
        out = []
        for k in self.carried:
            while isinstance(k, tuple) and len(k) == 3 and k[0] == PART:
                k = k[1]
            if k not in out:
                out.append(k)
        return out

    def set_exit(self, env):
        for k in self.roots():
            env[k] = self.symbolic("lexit", k)

    def __repr__(self):
        return "<Loop %s %s over %s (%d ways)>" % (self.kind, self.id[-1:], (self.source or ("?",))[:2], len(self.iters))


class End(object):
    __slots__ = ("kind", "bb", "env", "path", "ret")

    def __init__(self, kind, env, path, ret=None, bb=None):
        self.kind = kind    # return | diverge | unreachable | leave
        self.env = env
        self.path = path
        self.ret = ret
        self.bb = bb


class PseudoCallee(object):
    """Callee-like record for calls that exist only in a model (e.g. the function item given to fold)."""
    def __init__(self, name, path=None, trait=None, self_head=None, local=False, key=None):
        self.name = name
        self.path = path or name
        self.inst_path = self.path
        self.trait = trait
        self.self_head = self_head
        self.local = local
        self.key = key
        self.indirect = key is None and path is None
        self.container = None
        self.crate = None
        self.args = []
        self.self_arg_s = None
        self.resolved_key = None

    def short(self):
        return self.path

    def type_args(self):
        return []


class Policy(object):
    """What to evaluate in place.  `opaque`: qnames (or keys) of in-crate bodies that stay calls;
    `only`: if given, the only in-crate bodies that are evaluated in place (closures always are)."""
    def __init__(self, opaque=(), only=None, models=True, max_depth=MAX_DEPTH, opaque_names=(), self_keep=None):
        self.opaque_names = set(opaque_names)
        # if not None: a method of `opaque_names` that the evaluated method calls on its own receiver as a whole (a sibling
        # method of the same object) is looked into all the same, unless its name is in this set
        self.self_keep = set(self_keep) if self_keep is not None else None
        self.opaque = set(opaque)
        self.only = set(only) if only is not None else None
        self.models = models
        self.max_depth = max_depth

    def inline(self, body):
        if body.qname in self.opaque or body.key in self.opaque:
            return False
        if body.name in self.opaque_names and not body.is_closure:
            return False
        if body.is_closure:
            return True
        if self.only is not None:
            return body.qname in self.only or body.key in self.only
        return True


class Evaluator(object):
    def __init__(self, facts, policy=None):
        self.facts = facts
        self.policy = policy or Policy()
        self.frames = {}       # fid -> (body, upvars dict or None)
        self.callees = {}      # site -> callee
        self.enum_of = {}      # term -> type head, for discriminant atoms
        self._cfg = {}
        self._loops = {}
        self.n_ends = 0
        self._prom = {}
        self.pure_targs = {}
        self.tainted_literals = set()
        self.unrolling = {}    # site of a loop-head `next` -> the element it yields now (None: exhausted), while a loop is written out
        self.agg_targs = {}    # aggregate term -> set of tuples of its type arguments, in the evaluated function's generics
        self.enumerated = set()
        self.split_loops = set()   # loops that peel a slice with split_first(_mut): `while let Some((x, rest)) = r.split_first() { ..; r = rest }`
        self.subst = {}        # fid -> {generic parameter name: type string in the root's vocabulary}
        self.inlined = set()   # keys of bodies evaluated in place
        self.modelled = set()  # names of modelled std functions met

    # ------------------------------------------------------------------ public
    def eval(self, body, args=None):
        """All ways through `body`: list of End (kind return / diverge / unreachable)."""
        fid = ()
        self.frames[fid] = (body, None)
        env = {}
        if args:
            for i, a in enumerate(args):
                env[(fid, i + 1)] = a
        self.n_ends = 0
        return self.run(fid, body, 0, env, Path())

    def callee(self, site):
        return self.callees.get(site)

    def targs(self, t):
        """Type arguments of the call that produced term `t`, expressed in the generic parameters of the evaluated
        function (those written in a helper that was evaluated in place are translated back)."""
        if not (isinstance(t, tuple) and t and t[0] == "call"):
            return None
        c = self.callees.get(t[1])
        if c is None or not hasattr(c, "type_args"):
            return None
        if t[1] in self.pure_targs:
            return list(self.pure_targs[t[1]])
        fid = t[1][0] if isinstance(t[1], tuple) and t[1] and t[1][0] != "pure" else None
        s = self.subst.get(fid, {}) if fid is not None else {}
        return [_subst_ty(a["s"], s) for a in c.type_args()]

    def self_arg(self, t):
        if not (isinstance(t, tuple) and t and t[0] == "call"):
            return None
        c = self.callees.get(t[1])
        sa = getattr(c, "self_arg_s", None)
        if sa is None:
            return None
        fid = t[1][0] if isinstance(t[1], tuple) and t[1] and t[1][0] != "pure" else None
        return _subst_ty(sa, self.subst.get(fid, {}) if fid is not None else {})

    def body_of(self, site):
        return self.frames[site[0]][0]

    def loc(self, site):
        if site and site[0] == "pure":
            return None
        b = self.frames[site[0]][0]
        bb = site[1][0] if isinstance(site[1], tuple) else site[1]
        return b.loc(bb) if isinstance(bb, int) else b.loc()

    def cfg(self, body):
        c = self._cfg.get(body.key)
        if c is None:
            c = self._cfg[body.key] = Cfg(body)
            self._loops[body.key] = dict(c.loops())
        return c

    def loops_of(self, body):
        self.cfg(body)
        return self._loops[body.key]

    # ------------------------------------------------------------------ variants
    def variant_names(self, head):
        if head in EXTERNAL_VARIANTS:
            return dict(EXTERNAL_VARIANTS[head])
        adt = self.facts.adts.get(head)
        if adt:
            return dict((v["discr"], v["name"]) for v in adt["variants"])
        return None

    def discr_atom(self, t, ty=None):
        if ty is not None and t not in self.enum_of:
            self.enum_of[t] = ty_head(ty)
        return ("discr", t)

    def split_variant(self, t, head, path, site):
        """Branch on the variant of enum-valued term `t`: list of (variant name, path)."""
        if t[0] == "agg" and t[1] == "adt":
            return [(t[2].rsplit("::", 1)[1], path)]
        names = self.variant_names(head) or {}
        atom = self.discr_atom(t, head)
        poss = path.narrow.get(atom, frozenset(names.values()))
        out = []
        for d, n in sorted(names.items()):
            if n in poss:
                p = path.copy() if len(poss) > 1 else path
                if len(poss) > 1:
                    p.narrow[atom] = frozenset([n])
                    p.conds.append((atom, d, n, site))
                out.append((n, p))
        return out

    def payload(self, t, adt, variant, i=0):
        if t[0] == "agg" and t[1] == "adt" and t[2] == adt + "::" + variant:
            return t[3][i]
        if t[0] == "iternext" and variant == "Some":
            if t[1] in self.enumerated:
                return ("agg", "tuple", "tuple", (("index_of", t[1]), ("elem", t[1])), ())
            if t[1] in self.split_loops:
                return ("agg", "tuple", "tuple", (("elem", t[1]), ("rest", t[1])), ())
            return ("elem", t[1])
        return ("field", ("variant", t, variant), str(i), adt)

    def split_bool(self, d, path, site):
        """Branch on boolean term `d`: list of (0/1, path)."""
        flip = 0
        while d[0] == "un" and d[1] == "Not":
            d = d[2]
            flip ^= 1
        if d[0] == "int":
            return [((1 if d[1] else 0) ^ flip, path)]
        if d[0] == "bin" and d[1] in ("Eq", "Ne") and (d[2][0] == "discr" or d[3][0] == "discr"):
            a, b = (d[2], d[3]) if d[2][0] == "discr" else (d[3], d[2])
            name = None
            names = self.variant_names(self.enum_of.get(a[1], "")) or {}
            if b[0] == "variant_of":
                name = b[1]
            elif b[0] == "int":
                name = names.get(b[1])
            if name is not None and names:
                poss = path.narrow.get(a, frozenset(names.values()))
                ne = 1 if d[1] == "Ne" else 0
                out = []
                if name in poss:
                    p = path.copy()
                    if len(poss) > 1:
                        p.narrow[a] = frozenset([name])
                        p.conds.append((a, [k for k, v in names.items() if v == name][0], name, site))
                    out.append((1 ^ ne ^ flip, p))
                rest = poss - frozenset([name])
                if rest:
                    p = path.copy()
                    p.narrow[a] = rest
                    p.conds.append((a, "otherwise", "|".join(sorted(rest)), site))
                    out.append((0 ^ ne ^ flip, p))
                return out
        for (ct, cv, cn, cs) in path.conds:
            if ct == d and cv in (0, 1):
                return [(cv ^ flip, path)]
        p0, p1 = path.copy(), path.copy()
        p0.conds.append((d, 0, None, site))
        p1.conds.append((d, 1, None, site))
        return [(0 ^ flip, p0), (1 ^ flip, p1)]

    # ------------------------------------------------------------------ places / operands
    def _local(self, fid, body, env, l):
        t = env.get((fid, l))
        if t is None:
            if fid == () and 1 <= l <= body.arg_count:
                return ("param", l)
            return ("undef", fid, l)
        return t

    def place(self, fid, body, env, p, want_cell=False, for_store=False):
        t = self._local(fid, body, env, p["l"])
        cell = None
        upv = self.frames[fid][1]
        mem = env.get("mem")
        np = len(p["p"])
        for pi, e in enumerate(p["p"]):
            k = e["k"]
            if k == "deref":
                if t[0] == "cellref":
                    cell = t[1]
                    t = env.get(cell, ("undef",) + cell)
                elif mem and t in mem and not (for_store and pi == np - 1):
                    t = mem[t]   # what was last stored through this reference on this path
                continue
            cell = None
            from_value = False
            if k == "field":
                name = e.get("name", str(e["i"]))
                if "closure" in e and body.is_closure and p["l"] == 1 and t in (("param", 1), ("closure_env",)):
                    if upv is not None and name in upv:
                        t = upv[name]
                    else:
                        t = ("upvar", name)
                elif t[0] == "agg" and t[1] in ("tuple", "adt", "closure") and e["i"] < len(t[3]):
                    t = t[3][e["i"]]
                    from_value = True   # a component of a value built on this path: a value, not a place to re-read
                elif t[0] == "variant" and t[1][0] == "iternext" and t[2] == "Some":
                    lid = t[1][1]
                    t = ("elem", lid)
                    if lid in self.enumerated:
                        t = ("agg", "tuple", "tuple", (("index_of", lid), ("elem", lid)), ())
                    elif lid in self.split_loops:
                        t = ("agg", "tuple", "tuple", (("elem", lid), ("rest", lid)), ())
                else:
                    t = ("field", t, name, e.get("adt") or ("tuple" if e.get("tuple") else None))
            elif k == "index":
                t = ("index", t, self._local(fid, body, env, e["l"]))
            elif k == "cindex":
                t = ("index", t, ("int", e["off"]))
            elif k == "downcast":
                if t[0] == "agg" and t[1] == "adt" and t[2].rsplit("::", 1)[1] == e.get("variant"):
                    pass
                else:
                    t = ("variant", t, e.get("variant"))
            else:
                t = ("proj", t, k)
            if mem and k != "deref" and not from_value and t in mem and not (for_store and pi == np - 1):
                t = mem[t]
        if want_cell:
            return t, cell
        return t

    def operand(self, fid, body, env, o):
        k = o["k"]
        if k in ("copy", "move"):
            return self.place(fid, body, env, o["place"])
        if k == "const":
            if "fn" in o:
                f = o["fn"]
                r = f.get("resolved")
                key = r["key"] if r and r.get("inst_kind") == "item" else f["key"]
                s = self.subst.get(fid, {})
                return ("fnref", key, f.get("name"), tuple(_subst_ty(a["s"], s) for a in f.get("args", []) if a.get("k") == "ty"))
            if "closure" in o:
                return ("closure", o["closure"])
            if "int" in o:
                return ("int", o["int"])
            if "promoted" in o:
                v = self.promoted(body, o["promoted"])
                if v is not None:
                    return v
            return ("const", o.get("val", "?"))
        return ("const", "<%s>" % k)

    def promoted(self, body, idx):
        """Value of a promoted constant of `body` (`&Enum::Variant` and the like): its tiny body is straight-line."""
        key = (body.key, idx)
        if key in self._prom:
            return self._prom[key]
        v = None
        proms = body.raw.get("promoted") or []
        if idx < len(proms):
            pb = proms[idx]
            fid = ("promoted", body.key, idx)
            self.frames[fid] = (_Promoted(body, pb), None)
            env = {}
            bb = 0
            ok = True
            for _ in range(64):
                blk = pb["blocks"][bb]
                for st in blk["stmts"]:
                    if st["k"] == "assign" and not st["place"]["p"]:
                        env[(fid, st["place"]["l"])] = self.rvalue(fid, self.frames[fid][0], env, st["rv"])
                    elif st["k"] == "assign":
                        ok = False
                tk = blk["term"]["k"]
                if tk == "goto":
                    bb = blk["term"]["target"]
                    continue
                if tk != "return":
                    ok = False
                break
            if ok:
                v = env.get((fid, 0))
                if v is not None and (v[0] in ("undef", "cellref")):
                    v = None
        self._prom[key] = v
        return v

    def rvalue(self, fid, body, env, rv):
        k = rv["k"]
        if k == "use":
            return self.operand(fid, body, env, rv["op"])
        if k in ("ref", "rawptr", "copy_for_deref"):
            pl = rv["place"]
            if k == "ref" and rv.get("bk") in ("mut", "Mut"):
                if not pl["p"]:
                    if self._cell_eligible(body, pl["l"]) and self._local(fid, body, env, pl["l"])[0] != "cellref":
                        key = (fid, pl["l"])
                        if key not in env:
                            env[key] = self._local(fid, body, env, pl["l"])
                        return ("cellref", key)
                    return self.place(fid, body, env, pl)
                t, cell = self.place(fid, body, env, pl, want_cell=True, for_store=True)
                if cell is not None:
                    return ("cellref", cell)  # reborrow
                return t
            return self.place(fid, body, env, pl, for_store=(k != "copy_for_deref"))
        if k == "cast":
            return ("cast", rv["kind"].split("(")[0], self.operand(fid, body, env, rv["op"]))
        if k == "binop":
            a = self.operand(fid, body, env, rv["a"])
            b = self.operand(fid, body, env, rv["b"])
            return fold_bin(rv["op"], a, b)
        if k == "unop":
            a = self.operand(fid, body, env, rv["a"])
            if rv["op"] == "PtrMetadata":
                return ("len", a)
            if rv["op"] == "Not" and a[0] == "int":
                return ("int", 0 if a[1] else 1)
            if rv["op"] == "Not" and a[0] == "un" and a[1] == "Not":
                return a[2]
            return ("un", rv["op"], a)
        if k == "discr":
            t = self.place(fid, body, env, rv["place"])
            if t[0] == "agg" and t[1] == "adt":
                return ("variant_of", t[2].rsplit("::", 1)[1], t)
            return self.discr_atom(t, rv["place"]["ty"])
        if k == "agg":
            a = rv["agg"]
            if a == "adt":
                name = "%s::%s" % (rv["adt"], rv["variant"])
            elif a in ("closure", "coroutine"):
                name = rv["closure"]
            else:
                name = a
            t = ("agg", a, name, tuple(self.operand(fid, body, env, x) for x in rv["ops"]), tuple(rv.get("fields", [])))
            if a == "adt" and t[3] and len(t[4]) == len(t[3]):
                # `X { a: v.a, b: v.b }` with every field taken from the same `v: X` is `v` again
                first = t[3][0]
                if isinstance(first, tuple) and first and first[0] == "field" and first[3] == rv["adt"] and not str(rv.get("variant", "")) == "" \
                        and all(isinstance(o, tuple) and o and o[0] == "field" and o[1] == first[1] and o[2] == fn and o[3] == rv["adt"] for o, fn in zip(t[3], t[4])) \
                        and self._single_variant(rv["adt"]) and first[1][0] != "variant":
                    return first[1]
            if a == "adt" and rv.get("args"):
                sb = self.subst.get(fid, {})
                self.agg_targs.setdefault(t, set()).add(tuple(_subst_ty(x["s"], sb) for x in rv["args"] if x.get("k") == "ty"))
            return t
        if k == "repeat":
            return ("agg", "repeat", "repeat", (self.operand(fid, body, env, rv["op"]),), ())
        return ("const", "<%s>" % k)

    def _single_variant(self, adt):
        a = self.facts.adts.get(adt)
        return bool(a and len(a.get("variants", [])) == 1 and str(a.get("kind", "")).lower() != "enum")

    def _cell_eligible(self, body, l):
        ty = body.locals[l]["ty"]
        if ty in SCALARS:
            return True
        adt = self.facts.adts.get(ty_head(ty))
        return bool(adt and str(adt.get("kind", "")).lower() == "enum" and not ty.startswith("&"))

    # ------------------------------------------------------------------ the walker
    def run(self, fid, body, bb, env, path, region=None):
        """Walk from block `bb`; `region` = (header, blocks, Loop) restricts the walk to one iteration of a loop."""
        ends = []
        loops = self.loops_of(body)
        stack = [(bb, env, path, True)]
        while stack:
            bb, env, path, first = stack.pop()
            while True:
                self.n_ends += 0
                if region is not None and not first and (bb == region[0] or bb not in region[1]):
                    ends.append(End("leave", env, path, bb=bb))
                    break
                if bb in loops and not (region is not None and first and bb == region[0]):
                    for item in self.real_loop(fid, body, bb, env, path):
                        if isinstance(item, End):
                            ends.append(item)
                        else:
                            stack.append(item + (False,))
                    break
                first = False
                blk = body.blocks[bb]
                for st in blk["stmts"]:
                    if st["k"] != "assign":
                        continue
                    p = st["place"]
                    v = self.rvalue(fid, body, env, st["rv"])
                    if not p["p"]:
                        env[(fid, p["l"])] = v
                    else:
                        upd = _agg_update(env.get((fid, p["l"])), p["p"], v)
                        if upd is not None:
                            # a field of a record that lives in a local by value: the record changes, memory does not
                            env[(fid, p["l"])] = upd
                            continue
                        pt, cell = self.place(fid, body, env, p, want_cell=True, for_store=True)
                        if cell is not None:
                            env[cell] = v
                            path.events.append(("store", (fid, bb), ("cell", cell), v))
                        else:
                            path.events.append(("store", (fid, bb), pt, v))
                            self._remember(env, pt, v)
                t = blk["term"]
                k = t["k"]
                if k == "goto" or k in ("drop", "assert"):
                    bb = t["target"]
                elif k == "call":
                    nxt = self.do_call(fid, body, bb, t, env, path, region)
                    # nxt: list of ('go', env, path) | End
                    conts = []
                    for item in nxt:
                        if isinstance(item, End):
                            ends.append(item)
                        else:
                            conts.append(item)
                    if t["target"] is None or not conts:
                        break
                    for (env2, path2) in conts[1:]:
                        stack.append((t["target"], env2, path2, False))
                    env, path = conts[0]
                    bb = t["target"]
                elif k == "switch":
                    d = self.operand(fid, body, env, t["discr"])
                    branches = self.do_switch(fid, body, bb, t, d, path)
                    if not branches:
                        break
                    for (nb, p2) in branches[1:]:
                        stack.append((nb, dict(env), p2, False))
                    bb, path = branches[0]
                elif k == "return":
                    ends.append(End("return", env, path, ret=env.get((fid, 0), ("undef", fid, 0))))
                    self._count()
                    break
                else:
                    ends.append(End("unreachable" if k == "unreachable" else "diverge", env, path))
                    self._count()
                    break
        return ends

    def _count(self):
        self.n_ends += 1
        if self.n_ends > MAX_ENDS:
            raise TooManyPaths("more than %d paths" % MAX_ENDS)

    def do_switch(self, fid, body, bb, t, d, path):
        arms = t["arms"]
        site = (fid, bb)

        def live(b):
            tb = body.blocks[b]
            return not (tb["term"]["k"] == "unreachable" and not tb["stmts"])

        if d[0] == "int":
            nxt = t["otherwise"]
            for v, b in arms:
                if v == d[1]:
                    nxt = b
            return [(nxt, path)]
        if d[0] == "variant_of":
            head = d[2][2].rsplit("::", 1)[0]
            names = self.variant_names(head) or {}
            nxt = t["otherwise"]
            for v, b in arms:
                if names.get(v) == d[1]:
                    nxt = b
            return [(nxt, path)]
        if d[0] == "discr":
            names = self.variant_names(self.enum_of.get(d[1], ""))
            if names:
                poss = path.narrow.get(d, frozenset(names.values()))
                out = []
                armnames = set()
                for v, b in arms:
                    n = names.get(v)
                    armnames.add(n)
                    if n in poss and live(b):
                        p = path.copy()
                        if len(poss) > 1:
                            p.narrow[d] = frozenset([n])
                            p.conds.append((d, v, n, site))
                        out.append((b, p))
                rest = poss - armnames
                if rest and live(t["otherwise"]):
                    p = path.copy()
                    if len(poss) > 1:
                        p.narrow[d] = frozenset(rest)
                        p.conds.append((d, "otherwise", "|".join(sorted(rest)), site))
                    out.append((t["otherwise"], p))
                return out
        vals = [v for v, _ in arms]
        if vals == [0]:
            out = []
            for v, p in self.split_bool(d, path, site):
                nb = arms[0][1] if v == 0 else t["otherwise"]
                if live(nb):
                    out.append((nb, p))
            return out
        # integer match: each arm decides `d == v`, the default arm decides `d != v` for every arm value
        dn = d
        known_ne = set()
        for (ct, cv, cn, cs) in path.conds:
            if cn is None and isinstance(ct, tuple) and ct[0] == "bin" and ct[1] == "Eq" and ct[2] == dn and ct[3][0] == "int" and cv in (0, 1):
                if cv == 1:
                    nxt = t["otherwise"]
                    for v, b in arms:
                        if v == ct[3][1]:
                            nxt = b
                    return [(nxt, path)]
                known_ne.add(ct[3][1])
        out = []
        for v, b in arms:
            if v not in known_ne and live(b):
                p = path.copy()
                p.conds.append((("bin", "Eq", dn, ("int", v)), 1, None, site))
                out.append((b, p))
        if live(t["otherwise"]):
            p = path.copy()
            for v, b in arms:
                if v not in known_ne:
                    p.conds.append((("bin", "Eq", dn, ("int", v)), 0, None, site))
            out.append((t["otherwise"], p))
        return out

    # ------------------------------------------------------------------ calls
    def do_call(self, fid, body, bb, t, env, path, region):
        """Returns a list of (env, path) continuations (the destination already written) and End objects."""
        site = (fid, bb)
        c = Callee(t["func"])
        args = tuple(self.operand(fid, body, env, a) for a in t["args"])
        dest = t["dest"]
        results = None
        if c.indirect:
            f = self.operand(fid, body, env, t["func"])
            results = self.apply(f, args, fid, (bb, "fp"), env, path)
        if results is None and c.name == "from" and c.trait in ("std::convert::From", "core::convert::From") and len(args) == 1 and not c.local and \
                (c.self_arg_s or "") in SCALARS and any((a.get("s") in SCALARS) for a in c.type_args()[1:]):
            results = [("val", env, path, ("cast", "IntToInt", args[0]))]   # integer / bool widening: the value itself
        if results is None and self.policy.models:
            # the head of one iteration of a `for` / `while let` loop
            if region is not None and region[2].head_site == site and site in self.unrolling:
                # the loop is being written out element by element: this `next` yields the element whose turn it is
                x = self.unrolling[site]
                results = [("val", env, path, NONE if x is None else some(x))]
            elif (region is not None and c.name in ("split_first", "split_first_mut") and not c.local and "slice" in (c.path or "") and not path.events and not path.conds
                    and region[2].source is None and len(args) == 1 and _strip_casts(args[0])[:2] == ("lvar", region[2].id)):
                # the head of `while let Some((x, rest)) = cursor.split_first_mut()`: a traversal of what the cursor starts as,
                # provided every way round moves the cursor to `rest` (classify checks that)
                L = region[2]
                L.kind = "for"
                L.split_key = _strip_casts(args[0])[2]
                L.raw_source = ("splitsrc", L.id)
                L.iter_ty = None
                L.elem = ("elem", L.id)
                L.head_site = site
                self.split_loops.add(L.id)
                self.callees[site] = c
                results = [("val", env, path, ("iternext", L.id))]
                self.enum_of[("iternext", L.id)] = OPTION
            elif (region is not None and c.name == "next" and c.trait in ITER_TRAITS and not path.events and not path.conds
                    and region[2].source is None and args and not _mentions_loop(args[0], region[2].id)):
                L = region[2]
                L.kind = "for"
                L.raw_source = args[0]
                L.iter_ty = c.self_arg_s
                L.elem = ("elem", L.id)
                # `for (i, x) in it.enumerate()`: the loop is over `it`; what it yields is the pair (position, element)
                src = args[0]
                while src[0] == "call" and self.callee(src[1]) is not None and self.callee(src[1]).name == "into_iter" and not self.callee(src[1]).local and src[2]:
                    src = src[2][0]
                sc = self.callee(src[1]) if src[0] == "call" else None
                L.enumerated = bool(sc is not None and sc.name == "enumerate" and sc.trait in ITER_TRAITS and not sc.local and src[2])
                if L.enumerated:
                    L.raw_source = src[2][0]
                    L.iter_ty = None
                    self.enumerated.add(L.id)
                self.callees[site] = c
                L.head_site = site
                L.literal = self.literal_seq(L.raw_source, env)
                results = [("val", env, path, ("iternext", L.id))]
                self.enum_of[("iternext", L.id)] = OPTION
            else:
                m = self.find_model(c)
                if m is not None:
                    self.modelled.add(c.name)
                    results = m(self, Cx(fid, body, bb, env, path, site, c, t["args"]), args)
        if results is None:
            tb = self.facts.target_bodies(c, precise=True) if not c.indirect else []
            if len(tb) == 1 and (self._may_inline(fid, tb[0]) or self._sibling_call(fid, tb[0], args)):
                results = self.inline(fid, bb, tb[0], args, env, path, upvars=None, callee=c)
        if results is None:
            results = self.opaque(site, c, args, env, path)
        out = []
        for r in results:
            if r[0] == "val":
                _, env2, path2, v = r
                if t["target"] is None:
                    out.append(End("diverge", env2, path2))
                    self._count()
                    continue
                if not dest["p"]:
                    env2[(fid, dest["l"])] = v
                else:
                    pt, cell = self.place(fid, body, env2, dest, want_cell=True)
                    if cell is not None:
                        env2[cell] = v
                        path2.events.append(("store", site, ("cell", cell), v))
                    else:
                        path2.events.append(("store", site, pt, v))
                out.append((env2, path2))
            else:
                out.append(End(r[0], r[1], r[2]))
                self._count()
        return out

    def _remember(self, env, place, value):
        """Store forwarding: a later read of exactly this place on this path sees the value (until the place, or what
        it is part of, is handed to code that is not looked into)."""
        mem = dict(env.get("mem") or {})
        for k in list(mem):
            if _is_part(k, place) or _is_part(place, k):
                del mem[k]
        mem[place] = value
        env["mem"] = mem

    def _forget(self, env, args):
        mem = env.get("mem")
        if not mem:
            return
        keep = {}
        for k, v in mem.items():
            if not any(_shares_root(k, a) for a in args):
                keep[k] = v
        env["mem"] = keep

    def opaque(self, site, c, args, env, path):
        for a in args:
            # a written-out list handed to code that may change it is no longer known element by element
            if isinstance(a, tuple) and a and a[0] == "agg" and a[1] in ("array", "veclit") and c.name not in LITERAL_SAFE:
                self.tainted_literals.add(a)
        if c.name in PURE_OBSERVERS and not getattr(c, "local", False) and args and all(self._immutable_input(a) for a in args):
            # asking the same question about something nobody can change gives the same answer: one atom, not one per site
            site = ("pure", c.name, args)
        elif not args and c.name in PURE_CONSTANTS and (getattr(c, "path", "") or "").split("::<")[0].rsplit("::", 1)[0] in PURE_CONSTANTS[c.name] and hasattr(c, "type_args"):
            # a value fully determined by its type arguments (`TypeId::of::<T>()`, `ResourceId::new::<T>()`)
            fid = site[0]
            site = ("pure", c.name, tuple(_subst_ty(a["s"], self.subst.get(fid, {})) for a in c.type_args()))
            self.pure_targs[site] = list(site[2])
        self.callees[site] = c
        v = ("call", site, args)
        path.events.append(("call", site, c, args, v))
        # cells handed to code we do not look into may change (building a lazy adaptor runs nothing)
        if getattr(c, "trait", None) in ITER_TRAITS and c.name in semmodels.LAZY:
            return [("val", env, path, v)]
        for a in args:
            for k in _cellrefs(a):
                env[k] = ("havoc", site, k)
        if site[0] != "pure" and c.name not in PURE_OBSERVERS:
            self._forget(env, args)
        return [("val", env, path, v)]

    def _immutable_input(self, t):
        """`t` is (a view of) a parameter of the evaluated function that is passed by shared reference, or a constant."""
        while isinstance(t, tuple) and t and t[0] == "cast":
            t = t[2]
        if not isinstance(t, tuple) or not t:
            return False
        if t[0] in ("int", "const"):
            return True
        if t[0] == "param":
            root = self.frames.get(())
            if root is None:
                return False
            ty = root[0].locals[t[1]]["ty"] if t[1] < len(root[0].locals) else ""
            return ty.startswith("&") and not ty.startswith("&mut ")
        return False

    def _sibling_call(self, fid, tb, args):
        pol = self.policy
        if pol.self_keep is None or tb.is_closure or tb.name not in pol.opaque_names or tb.name in pol.self_keep:
            return False
        if tb.qname in pol.opaque or tb.key in pol.opaque or len(fid) >= pol.max_depth or not args:
            return False
        root = self.frames.get(())
        if root is None or root[0].key == tb.key or root[0].self_head != tb.self_head or not isinstance(tb.self_head, str):
            return False
        a = args[0]
        while isinstance(a, tuple) and a and a[0] == "cast":
            a = a[2]
        return a == ("param", 1) and all(k != tb.key for (_, k) in fid)

    def _may_inline(self, fid, tb):
        if not self.policy.inline(tb):
            return False
        # derived impls on structs stay calls (`a == b` is one atom, not one per field); on enums they are
        # looked into, so that `x == Enum::Variant` is the variant test it is
        sp = tb.raw.get("span") or {}
        if tb.container == "trait_impl" and str(sp.get("expn") or "").startswith("Macro(Derive"):
            adt = self.facts.adts.get(tb.self_head if isinstance(tb.self_head, str) else "")
            if adt is None or str(adt.get("kind", "")).lower() != "enum":
                return False
        if len(fid) >= self.policy.max_depth:
            return False
        root = self.frames.get(())
        if root is not None and root[0].key == tb.key:
            return False
        return all(k != tb.key for (_, k) in fid)

    def inline(self, fid, bb, cb, args, env, path, upvars=None, closure_args=None, callee=None):
        """Evaluate body `cb` in place.  For closures: `upvars` maps capture names to terms and
        `closure_args` are the (already untupled) arguments."""
        nfid = fid + ((bb, cb.key),)
        self.frames[nfid] = (cb, upvars)
        # what the callee's generic parameters stand for, in the vocabulary of the evaluated function
        outer = self.subst.get(fid, {})
        if cb.is_closure:
            self.subst[nfid] = outer
        else:
            s = {}
            if callee is not None and getattr(callee, "args", None):
                gens = dict((g["index"], g["name"]) for g in cb.raw.get("generics", []))
                for i, a in enumerate(callee.args):
                    if a.get("k") == "ty" and i in gens:
                        s[gens[i]] = _subst_ty(a["s"], outer)
            self.subst[nfid] = s
        self.inlined.add(cb.key)
        if cb.is_closure:
            env[(nfid, 1)] = ("closure_env",)
            for i, a in enumerate(closure_args or ()):
                env[(nfid, i + 2)] = a
        else:
            for i, a in enumerate(args):
                env[(nfid, i + 1)] = a
        out = []
        for e in self.run(nfid, cb, 0, env, path):
            if e.kind == "return":
                self.n_ends -= 1
                out.append(("val", e.env, e.path, e.ret))
            else:
                self.n_ends -= 1
                out.append((e.kind, e.env, e.path))
        return out

    def apply(self, f, argv, fid, bbtag, env, path, fop=None):
        """Call the callable term `f` with argument terms `argv`: list of ('val', env, path, value) | (kind, env, path).
        `bbtag` = (bb, tag) names the call inside the model that makes it."""
        site = (fid, bbtag)
        if f is None:
            return self.opaque(site, PseudoCallee("<indirect>"), tuple(argv), env, path)
        key = None
        upv = None
        if f[0] == "agg" and f[1] == "closure":
            key = f[2]
            upv = dict(zip(f[4], f[3]))
        elif f[0] == "closure":
            key = f[1]
            upv = {}
        elif f[0] == "fnref":
            # tuple-variant constructors used as functions (`.map(Some)`)
            for nm, adt in (("Some", OPTION), ("Ok", RESULT), ("Err", RESULT)):
                if f[2] == nm and "{constructor" in str(f[1]) and adt.rsplit("::", 1)[1] + "::" + nm in str(f[1]) and len(argv) == 1:
                    return [("val", env, path, mk_variant(adt, nm, argv))]
            cb = self.facts.bodies.get(f[1])
            if cb is not None and self._may_inline(fid, cb):
                return self.inline(fid, bbtag, cb, tuple(argv), env, path)
            c = Callee(fop) if fop is not None else None
            if c is None or c.indirect:
                c = PseudoCallee(f[2], path=f[1], key=f[1], local=f[1] in self.facts.bodies)
            return self.opaque(site, c, tuple(argv), env, path)
        if key is not None:
            cb = self.facts.bodies.get(key)
            if cb is not None and len(fid) < self.policy.max_depth + 4 and all(k != key for (_, k) in fid):
                return self.inline(fid, bbtag, cb, (), env, path, upvars=upv, closure_args=tuple(argv))
        return self.opaque(site, PseudoCallee("<indirect>"), (f,) + tuple(argv), env, path)

    def find_model(self, c):
        m = MODELS.get((c.name, _kind_of(c)))
        return m

    # ------------------------------------------------------------------ loops
    def loop_fixpoint(self, L, env, iterate):
        """Find the loop-carried keys and tabulate one iteration.  `iterate(env0)` returns a list of
        (end, env, path, ret, target)."""
        carried = set()
        res = []
        L.shapes = {}
        refused = set()
        for attempt in range(24):
            env0 = dict(env)
            for k in carried:
                env0[k] = L.symbolic("lvar", k)
            L.source = L.raw_source = None
            env0.pop("mem", None)   # forwarded stores do not survive a loop head (the body may overwrite the place)
            res = iterate(env0)
            written = set()
            for (end, e_env, e_path, ret, target) in res:
                for k, v in env.items():
                    if k == "mem":
                        continue
                    if k not in carried and e_env.get(k) != v:
                        written.add(k)
            if written:
                carried |= written
                continue
            # a carried tuple / record that is rebuilt component by component on every way round is carried by components
            split = None
            for k in sorted(carried, key=repr):
                for kp in L.leaves(k):
                    if kp in refused:
                        continue
                    sh = _agg_shape(_part_of(env[k], kp, k))
                    if sh is None:
                        continue
                    again = [_part_of(e_env.get(k), kp, k) for (end, e_env, e_path, ret, target) in res if end == "continue"]
                    if again and all(_agg_shape(a) == sh for a in again):
                        split = (kp, _part_of(env[k], kp, k))
                        break
                    refused.add(kp)
                if split:
                    break
            if split is None:
                break
            L.shapes[split[0]] = split[1]
        else:
            raise NotLoopFree("loop-carried state of %s does not stabilise" % (L.id,))
        L.carried = dict((kp, _part_of(env[k], kp, k)) for k in carried for kp in L.leaves(k))
        L.iters = []
        for (end, e_env, e_path, ret, target) in res:
            ups = {}
            for k in carried:
                for kp in L.leaves(k):
                    v = _part_of(e_env.get(k), kp, k)
                    if v is None and end == "continue":
                        raise NotLoopFree("loop-carried component %r of %s is not rebuilt on a way round" % (kp, L.id))
                    v = simplify(v, e_path)
                    lv = ("lvar", L.id, kp)
                    # writing back the value the variable is known to have on this way is no change
                    if v is not None and v[0] == "int" and any(cn is None and ((ct == ("bin", "Eq", lv, v) and cv == 1) or (ct == lv and cv == v[1])) for (ct, cv, cn, cs) in e_path.conds):
                        v = lv
                    ups[kp] = v
            L.iters.append(Iter(e_path, end, ups, ret=ret, target=target, env=e_env))
        return L

    def real_loop(self, fid, body, header, env, path):
        blocks = self.loops_of(body)[header]
        L = Loop((fid, header), (fid, header), "while")

        def iterate(env0):
            out = []
            for e in self.run(fid, body, header, env0, Path(), region=(header, blocks, L)):
                if e.kind == "leave":
                    out.append(("continue" if e.bb == header else "break", e.env, e.path, None, e.bb))
                else:
                    self.n_ends -= 1
                    out.append((e.kind, e.env, e.path, e.ret, None))
            return out

        self.loop_fixpoint(L, env, iterate)
        self.classify(L)
        if L.kind == "for" and L.literal is not None and L.head_site is not None and not L.stages:
            items = self.unroll(fid, body, header, blocks, L, env, path)
            if items is not None:
                return items
        L = self.wrap_flatten(L)
        items = []
        for idx, it in enumerate(L.iters):
            if it.end == "continue":
                continue
            p = path.copy()
            p.events.append(("loop", L, idx))
            if it.end != "done":
                # what was decided in the exiting iteration stays decided afterwards
                p.conds.extend(c for c in it.path.conds if c not in p.conds)
                p.narrow.update(it.path.narrow)
            if it.end in ("break", "done"):
                e2 = dict(it.env)
                if it.end == "done":
                    L.set_exit(e2)
                items.append((it.target, e2, p))
            else:
                items.append(End(it.end, it.env, p, ret=it.ret))
                self._count()
        if not items:
            # an endless loop
            p = path.copy()
            p.events.append(("loop", L, None))
            items.append(End("diverge", env, p))
        return items

    def literal_seq(self, src, env):
        """The elements, if the iterator term `src` runs over a list written out on this path."""
        t = src
        while isinstance(t, tuple) and t:
            if t[0] == "cast":
                t = t[2]
            elif t[0] == "call":
                c = self.callee(t[1])
                if c is not None and not c.local and c.name in ("into_iter", "iter", "as_slice", "deref", "as_ref", "borrow") and len(t[2]) == 1:
                    t = t[2][0]
                else:
                    break
            else:
                break
        if isinstance(t, tuple) and t and t[0] == "agg" and t[1] in ("array", "veclit") and len(t[3]) <= UNROLL_MAX and t not in self.tainted_literals:
            return t[3]
        return None

    def unroll(self, fid, body, header, blocks, L, env, path):
        """Write a loop over a literal list out: the body once per element, in order.  Returns what real_loop returns,
        or None when that would branch too much (the symbolic tabulation is used then)."""
        site = L.head_site
        elems = list(L.literal)
        if L.enumerated:
            elems = [("agg", "tuple", "tuple", (("int", i), x), ()) for i, x in enumerate(elems)]
        live = [(dict(env), path.copy())]
        items = []
        saved = self.unrolling.get(site, "absent")
        n0 = self.n_ends
        try:
            for x in elems + [None]:
                self.unrolling[site] = x
                nxt = []
                for (e0, p0) in live:
                    R = Loop(L.id, L.site, "for")
                    R.head_site = site
                    R.source = R.raw_source = L.source
                    for e in self.run(fid, body, header, e0, p0, region=(header, blocks, R)):
                        if e.kind == "leave":
                            if e.bb == header:
                                nxt.append((e.env, e.path))
                            else:
                                items.append((e.bb, e.env, e.path))
                        else:
                            items.append(e)
                live = nxt
                if len(live) + len(items) > UNROLL_WAYS:
                    self.n_ends = n0
                    return None
            if live:
                # the exhausted iterator did not end the loop: not a plain `for`
                self.n_ends = n0
                return None
        finally:
            if saved == "absent":
                self.unrolling.pop(site, None)
            else:
                self.unrolling[site] = saved
        return items

    def wrap_flatten(self, L):
        """`for x in it.flatten()` is a loop over `it` whose every step is a loop over the element: say so."""
        while L.kind == "for" and isinstance(L.source, tuple) and L.source[0] == "call":
            c = self.callee(L.source[1])
            if not (c is not None and c.name == "flatten" and c.trait in ITER_TRAITS and not c.local and L.source[2]):
                break
            O = Loop(L.id + ("flat",), L.site, "for")
            O.elem = ("elem", O.id)
            O.source = O.raw_source = L.source[2][0]
            O.iter_ty = c.self_arg_s
            O.carried = dict(L.carried)
            O.shapes = dict(L.shapes)
            L.source = L.raw_source = O.elem
            L.iter_ty = None
            L.carried = dict((k, ("lvar", O.id, k)) for k in O.carried)
            for j, it in enumerate(L.iters):
                p = Path(list(it.path.conds) if it.end != "done" else [], [("loop", L, j)], dict(it.path.narrow) if it.end != "done" else {})
                if it.end == "done":
                    O.iters.append(Iter(p, "continue", dict((k, ("lexit", L.id, k)) for k in O.carried)))
                elif it.end != "continue":
                    O.iters.append(Iter(p, it.end, dict(it.updates), ret=it.ret, target=it.target, env=it.env))
            O.iters.append(Iter(Path(), "done", dict((k, ("lvar", O.id, k)) for k in O.carried), target=[it.target for it in L.iters if it.end == "done"][0] if [it for it in L.iters if it.end == "done"] else None,
                                env=[it.env for it in L.iters if it.end == "done"][0] if [it for it in L.iters if it.end == "done"] else None))
            if O.iters[-1].env is None:
                O.iters.pop()
            L = O
        return L

    def classify(self, L):
        """for / counter recognition, `done` exits, peeling of lazy adaptors off the source."""
        if L.kind == "for" and L.raw_source == ("splitsrc", L.id):
            k = L.split_key
            moves = [it.updates.get(k) for it in L.iters if it.end == "continue"]
            if k in L.carried and moves and all(m == ("rest", L.id) for m in moves):
                L.raw_source = L.carried.pop(k)
                for it in L.iters:
                    it.updates.pop(k, None)
            else:
                # the cursor is not simply advanced: not a traversal anybody should rely on
                L.kind = "while"
                L.raw_source = L.source = None
        if L.kind == "for" and L.raw_source is not None:
            atom = ("discr", ("iternext", L.id))
            for it in L.iters:
                if it.end == "break" and it.path.narrow.get(atom) == frozenset(["None"]) and not it.events:
                    it.end = "done"
                it.path.conds = [c for c in it.path.conds if c[0] != atom]
            src = L.raw_source
            while src[0] == "call" and self.callee(src[1]) is not None and self.callee(src[1]).name == "into_iter" and not self.callee(src[1]).local and src[2]:
                src = src[2][0]
            L.source = src
            return
        # `while i < hi { ..; i += 1 }` (also `loop { if i >= hi { break } ..; i += 1 }`) and the countdown
        # `while r > 0 { ..; r -= 1 }` whose body does not look at r
        for k, init in L.carried.items():
            lv = ("lvar", L.id, k)
            firsts = [it.conds[0] for it in L.iters if it.conds]
            if len(firsts) != len(L.iters) or not firsts:
                continue
            a = firsts[0][0]
            if any(f[0] != a for f in firsts) or a[0] != "bin":
                continue
            rel = _rel_to(a, lv)     # (op, other): `lv op other` is what the atom says when true
            if rel is None or _mentions_loop(rel[1], L.id):
                continue
            op, other = rel

            def inside(v):
                """does the decided value of the atom mean `the counter is still in range`?"""
                if op in ("Lt", "Ne") and up:
                    return v == 1
                if op in ("Ge", "Eq") and up:
                    return v == 0
                if op in ("Gt", "Ne") and not up:
                    return v == 1
                if op in ("Le", "Eq") and not up:
                    return v == 0
                return None
            for up in (True, False):
                if not up and other != ("int", 0):
                    continue
                if op in ("Ne", "Eq") and up and init != ("int", 0):
                    continue
                ok = True
                for it in L.iters:
                    ins = inside(it.conds[0][1])
                    if ins is None:
                        ok = False
                    elif ins:
                        if it.end == "continue" and not (_is_incr(it.updates.get(k), lv) if up else _is_decr(it.updates.get(k), lv)):
                            ok = False
                    else:
                        if it.end != "break" or len(it.conds) != 1 or any(e[0] != "call" or e[2].name not in ("len", "deref", "as_ref", "borrow") for e in it.events):
                            ok = False
                if ok and not up:
                    # the value of a countdown is not the index of a front-to-back traversal: only allowed if unused
                    for it in L.iters:
                        used = [c for c in it.conds[1:] if _mentions_term(c[0], lv)] + [e for e in it.events if e[0] in ("call", "store") and _mentions_term(e[3], lv)]
                        if used or any(_mentions_term(v, lv) for kk, v in it.updates.items() if kk != k) or (it.ret is not None and _mentions_term(it.ret, lv)):
                            ok = False
                if not ok:
                    continue
                L.kind = "counter"
                L.counter_key = k
                L.elem = lv if up else ("countdown", L.id)
                L.source = L.raw_source = ("agg", "adt", "std::ops::Range::Range", ((init, other) if up else (("int", 0), init)), ("start", "end"))
                L.iter_ty = "std::ops::Range<usize>"
                for it in L.iters:
                    if not inside(it.conds[0][1]):
                        it.end = "done"
                    it.path.conds = it.path.conds[1:]
                return


def _rel_to(atom, lv):
    """atom is a comparison with `lv` on one side: (op, other side) with lv on the left."""
    flip = {"Lt": "Gt", "Gt": "Lt", "Le": "Ge", "Ge": "Le", "Eq": "Eq", "Ne": "Ne"}
    if atom[0] != "bin" or atom[1] not in flip:
        return None
    if atom[2] == lv:
        return atom[1], atom[3]
    if atom[3] == lv:
        return flip[atom[1]], atom[2]
    return None


def _strip_casts(t):
    while isinstance(t, tuple) and t and t[0] == "cast":
        t = t[2]
    return t if isinstance(t, tuple) else ()


def _mentions_term(t, x):
    if t == x:
        return True
    if not isinstance(t, tuple):
        return False
    return any(_mentions_term(y, x) for y in t if isinstance(y, tuple))


def _is_decr(t, base):
    if t is None:
        return False
    if t[0] == "field" and t[2] == "0" and isinstance(t[1], tuple) and t[1][0] == "bin":
        t = t[1]
    return t[0] == "bin" and t[1].startswith("Sub") and t[2] == base and t[3] == ("int", 1)


def simplify(t, path):
    """Fold what the path already knows into a term: decided boolean atoms become constants, `x | false`, `x & true`
    and friends disappear."""
    if not isinstance(t, tuple) or not t:
        return t
    for (ct, cv, cn, cs) in path.conds:
        if ct == t and cv in (0, 1) and cn is None:
            return ("int", cv)
        if cv == 1 and cn is None and ct[0] == "bin" and ct[1] == "Eq" and ct[2] == t and ct[3][0] == "int":
            return ct[3]
    k = t[0]
    if k == "bin":
        a, b = simplify(t[2], path), simplify(t[3], path)
        op = t[1]
        if op in ("BitOr", "BitAnd", "BitXor"):
            for x, y in ((a, b), (b, a)):
                if x[0] == "int" and x[1] in (0, 1):
                    if op == "BitOr":
                        return ("int", 1) if x[1] else y
                    if op == "BitAnd":
                        return y if x[1] else ("int", 0)
                    if op == "BitXor" and x[1] == 0:
                        return y
        return fold_bin(op, a, b) if (a[0] == "int" and b[0] == "int") else ("bin", op, a, b)
    if k == "un" and t[1] == "Not":
        a = simplify(t[2], path)
        return ("int", 0 if a[1] else 1) if a[0] == "int" else ("un", "Not", a)
    if k == "cast":
        a = simplify(t[2], path)
        return a if a[0] == "int" else ("cast", t[1], a)
    return t


class _Promoted(object):
    """Just enough of a Body for evaluating a promoted constant."""
    def __init__(self, owner, raw):
        self.raw = raw
        self.key = owner.key + "::promoted"
        self.qname = owner.qname
        self.blocks = raw["blocks"]
        self.locals = [{"ty": "?"}] * raw.get("nlocals", 0)
        self.arg_count = 0
        self.is_closure = False
        self.span = owner.span

    def loc(self, bb=None):
        return "%s:%d" % (self.span["file"], self.span["line"])


class Cx(object):
    """Context of a modelled call."""
    def __init__(self, fid, body, bb, env, path, site, callee, ops):
        self.fid, self.body, self.bb, self.env, self.path, self.site, self.callee, self.ops = fid, body, bb, env, path, site, callee, ops

    def fop(self, i):
        o = self.ops[i] if self.ops is not None and i < len(self.ops) else None
        return o if (o is not None and o.get("k") == "const" and "fn" in o) else None


def _place_root(t):
    while isinstance(t, tuple) and t and t[0] in ("field", "index", "variant", "proj", "cast"):
        t = t[2] if t[0] == "cast" else t[1]
    return t


def _is_part(a, b):
    """place term `a` is `b` or lies inside it"""
    while True:
        if a == b:
            return True
        if isinstance(a, tuple) and a and a[0] in ("field", "index", "variant", "proj"):
            a = a[1]
        else:
            return False


def _shares_root(place, arg):
    """Could code that receives `arg` change what is stored at `place`?  Only if one of the two lies inside the other:
    `self.world` handed to a callee cannot touch `self.index`."""
    x = arg
    for _ in range(12):
        if _is_part(place, x) or _is_part(x, place):
            return True
        if isinstance(x, tuple) and x and x[0] == "call" and x[2]:
            x = x[2][0]   # look through the transparent part of the argument
        elif isinstance(x, tuple) and x and x[0] == "cast":
            x = x[2]
        else:
            return False
    return False


def _subst_ty(s, m):
    if not m or not s:
        return s
    import re
    return re.sub(r"\b([A-Za-z_][A-Za-z0-9_]*)\b", lambda mo: m.get(mo.group(1), mo.group(1)) if mo.group(1) in m else mo.group(1), s)


def _mentions_loop(t, lid):
    if not isinstance(t, tuple) or not t:
        return False
    if t[0] in ("elem", "iternext", "lvar", "lexit") and len(t) > 1 and t[1] == lid:
        return True
    for x in t[1:]:
        if isinstance(x, tuple) and _mentions_loop(x, lid):
            return True
    return False


def _cellrefs(t):
    if not isinstance(t, tuple) or not t:
        return
    if t[0] == "cellref":
        yield t[1]
        return
    for x in t[1:]:
        if isinstance(x, tuple):
            for y in _cellrefs(x):
                yield y


def _is_incr(t, base):
    if t is None:
        return False
    if t[0] == "field" and t[2] == "0" and isinstance(t[1], tuple) and t[1][0] == "bin":
        t = t[1]
    return t[0] == "bin" and t[1].startswith("Add") and ((t[2] == base and t[3] == ("int", 1)) or (t[3] == base and t[2] == ("int", 1)))


def fold_bin(op, a, b):
    if a[0] == "int" and b[0] == "int":
        x, y = a[1], b[1]
        base = op.replace("WithOverflow", "").replace("Unchecked", "")
        r = None
        if base == "Add":
            r = x + y
        elif base == "Sub":
            r = x - y
        elif base == "Mul":
            r = x * y
        elif base == "Eq":
            r = int(x == y)
        elif base == "Ne":
            r = int(x != y)
        elif base == "Lt":
            r = int(x < y)
        elif base == "Le":
            r = int(x <= y)
        elif base == "Gt":
            r = int(x > y)
        elif base == "Ge":
            r = int(x >= y)
        if r is not None:
            if op.endswith("WithOverflow"):
                return ("agg", "tuple", "tuple", (("int", r), ("int", 0)), ())
            return ("int", r)
    return ("bin", op, a, b)


def _agg_update(t, projs, v):
    """The aggregate `t` with the component named by the field projections replaced by v; None when `t` is not an
    aggregate built on this path all the way down."""
    if not projs or not (isinstance(t, tuple) and t and t[0] == "agg" and t[1] in ("tuple", "adt", "closure")):
        return None
    e = projs[0]
    if e["k"] != "field" or e["i"] >= len(t[3]):
        return None
    if len(projs) == 1:
        nv = v
    else:
        nv = _agg_update(t[3][e["i"]], projs[1:], v)
        if nv is None:
            return None
    vals = list(t[3])
    vals[e["i"]] = nv
    return t[:3] + (tuple(vals),) + t[4:]


def _kind_of(c):
    """Which family a std callee belongs to: 'option', 'result', 'iter', 'fn', 'bool', 'intrinsic' or None."""
    if c.local:
        return None
    if c.trait in ITER_TRAITS:
        return "iter"
    if c.trait in FN_TRAITS:
        return "fn"
    sh = c.self_head if isinstance(c.self_head, str) else ""
    p = c.path or ""
    if sh == OPTION or p.startswith(OPTION + "::") or p.startswith("std::option::Option::<"):
        return "option"
    if sh == RESULT or p.startswith(RESULT + "::") or p.startswith("std::result::Result::<"):
        return "result"
    if p.startswith("std::intrinsics::") or p.startswith("core::intrinsics::"):
        return "intrinsic"
    if sh == "bool" or p.startswith("bool::") or p.startswith("std::bool::"):
        return "bool"
    if c.trait in ("std::ops::Try", "core::ops::Try", "std::ops::FromResidual", "core::ops::FromResidual"):
        return "try"
    if c.name in ("retain", "retain_mut") and not c.trait:
        return "vec"
    if c.name in ("swap", "replace", "take") and (p.startswith("std::mem::") or p.startswith("core::mem::")):
        return "mem"
    if c.name == "contains" and ("slice::" in p or "[T]" in p or p.startswith("std::vec::Vec")) and not c.trait:
        return "slice"
    if c.name in ("box_assume_init_into_vec_unsafe", "into_vec") and (p.startswith("std::boxed::") or p.startswith("std::slice::") or p.startswith("alloc::")):
        return "alloc"
    if c.crate in ("rayon", "rayon_core"):
        return "rayon"
    if sh == "std::collections::hash_map::Entry":
        return "hashentry"
    return None


MODELS = {}


def model(name, kind):
    def deco(f):
        MODELS[(name, kind)] = f
        return f
    return deco


from . import semmodels  # noqa: E402,F401  (registers the models)
