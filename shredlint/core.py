"""Check context, obligation reporting, evidence and known-findings handling."""
import json
import os
import time

from . import extract as X
from .facts import load, AnchorError
from .terms import Program
from .paths import TooManyPaths, NotLoopFree

VERIF = X.VERIF
QUICK_CONFIGS = ["default", "nopar", "nopar-derive", "nightly"]    # code under a feature switch is code: a change there is a change (it used to be thorough-only)
THOROUGH_CONFIGS = ["default", "nopar", "nopar-derive", "nightly"]


class Ctx(object):
    def __init__(self, tier="quick"):
        self.tier = tier
        self._facts = {}
        self._prog = {}
        self.extractions = []
        self.t0 = time.time()

    @property
    def configs(self):
        return list(THOROUGH_CONFIGS if self.tier == "thorough" else QUICK_CONFIGS)

    def facts(self, config="default", crate="shred", kind="rlib"):
        k = (config, crate, kind)
        if k not in self._facts:
            d, info = X.extract(config)
            self.extractions.append(info)
            files = X.fact_files(d, crate=crate, kind=kind)
            if len(files) != 1:
                raise AnchorError("expected one fact file for %s/%s/%s, found %d" % (config, crate, kind, len(files)))
            self._facts[k] = load(files[0], label=config)
        return self._facts[k]

    def all_facts(self, config):
        """All fact files of a configuration (all-targets, probe)."""
        d, info = X.extract(config)
        self.extractions.append(info)
        out = []
        for f in X.fact_files(d):
            out.append(load(f, label=config + ":" + os.path.basename(f).rsplit("-", 1)[0]))
        return out

    def program(self, facts):
        k = id(facts)
        if k not in self._prog:
            self._prog[k] = Program(facts)
        return self._prog[k]

    def parallel(self, config):
        return config in ("default", "nightly", "all-targets", "probe")


class Report(object):
    def __init__(self, prop):
        self.prop = prop
        self.obs = []  # dicts
        self.notes = []
        self.analysed = {"bodies": set(), "configs": set()}
        self.samples = []

    def ob(self, rule, instance, ok, detail="", site=None, config=None):
        key = "%s/%s" % (rule, instance)
        if config and config != "default":
            key_full = key + "@" + config
        else:
            key_full = key
        self.obs.append({
            "rule": rule, "instance": instance, "key": key_full, "ok": bool(ok),
            "detail": detail, "site": site, "config": config or "default",
        })
        return bool(ok)

    def note(self, text):
        self.notes.append(text)

    def floor(self, rule, what, count, minimum, config=None):
        self.ob(rule, "FLOOR:" + what, count >= minimum,
                "matched %d instance(s) of %s, floor is %d" % (count, what, minimum), config=config)

    def touched(self, body, config="default"):
        self.analysed["bodies"].add(body.qname if hasattr(body, "qname") else str(body))
        self.analysed["configs"].add(config)

    def guard(self, rule, fn, *a, **kw):
        """Run a rule function; a missing anchor or an unrecognised shape is a
        violation (fail closed), never a silent pass."""
        cfg = kw.get("config")
        try:
            fn(*a, **kw)
        except AnchorError as e:
            self.ob(rule, "ANCHOR", False, str(e), config=cfg)
        except (TooManyPaths, NotLoopFree) as e:
            self.ob(rule, "SHAPE", False, "%s: %s" % (type(e).__name__, e), config=cfg)
        except Exception as e:  # unrecognised shape: fail closed, but say where
            import traceback
            tb = traceback.extract_tb(e.__traceback__)
            where = "%s:%d" % (os.path.basename(tb[-1].filename), tb[-1].lineno) if tb else "?"
            self.ob(rule, "SHAPE", False, "the rule could not interpret the code it anchors in (%s: %s at %s)" % (type(e).__name__, e, where), config=cfg)

    def violations(self):
        return [o for o in self.obs if not o["ok"]]


def load_known():
    p = os.path.join(VERIF, "known_findings.json")
    if not os.path.exists(p):
        return {"findings": [], "fixed": []}
    with open(p) as f:
        return json.load(f)


def finish(prop, report, ctx, explanation, assumptions, trusted_base, rule_text, explain_key=None):
    """Print the result lines, write replay files and the evidence file.
    Returns the process exit code."""
    known = load_known()
    known_keys = {k["key"]: k for k in known.get("findings", []) if k.get("property") == prop}
    out_dir = os.path.join(os.environ.get("VERIF_OUT_DIR", os.path.join(VERIF, "out")), prop)
    os.makedirs(out_dir, exist_ok=True)
    for fn in os.listdir(out_dir):
        if fn.endswith(".json"):
            os.unlink(os.path.join(out_dir, fn))
    viol = report.violations()
    new = []
    printed_known = set()
    for v in viol:
        base_key = v["key"].split("@", 1)[0]  # the same finding in another feature configuration
        if base_key in known_keys:
            if base_key not in printed_known:
                printed_known.add(base_key)
                print("KNOWN-FINDING: property=%s %s %s" % (prop, base_key, known_keys[base_key]["what"]))
        else:
            new.append(v)
    by_rule = {}
    for o in report.obs:
        r = by_rule.setdefault(o["rule"], [0, 0])
        r[0] += 1
        r[1] += 1 if o["ok"] else 0
    for rname in sorted(by_rule):
        tot, ok = by_rule[rname]
        print("%-18s %3d/%3d obligations hold" % (rname, ok, tot))
    for i, v in enumerate(new):
        path = os.path.join(out_dir, "%d.json" % i)
        with open(path, "w") as f:
            json.dump({"property": prop, "violation": v, "tree_hash": [e["tree_hash"] for e in ctx.extractions][:1]}, f, indent=1)
        print("  %s at %s: %s" % (v["key"], v["site"], v["detail"]))
        print("VIOLATION property=%s replay=%s" % (prop, path))
    wall = round(time.time() - ctx.t0, 2)
    distinct_sites = set()
    for o in report.obs:
        distinct_sites.add((o["rule"], o["instance"]))
    samples = []
    seen_rules = set()
    for o in report.obs:
        if o["rule"] not in seen_rules or not o["ok"]:
            seen_rules.add(o["rule"])
            samples.append({"rule": o["rule"], "instance": o["instance"], "holds": o["ok"],
                            "site": o["site"], "detail": o["detail"][:400], "config": o["config"]})
    ev = {
        "property_id": prop,
        "tier": ctx.tier,
        "seed": int(os.environ.get("VERIF_SEED", "0") or 0),
        "level": "other",
        "coverage": {
            "explanation": explanation,
            "obligations": len(report.obs),
            "discharged": len([o for o in report.obs if o["ok"]]),
            "evaluations": len(report.obs),
            "distinct_nontrivial": len(distinct_sites),
            "rule": rule_text,
            "samples": samples[:60],
            "checker_cmd": "./check %s --tier %s" % (prop, ctx.tier),
            "trusted_base": trusted_base,
            "exhaustive": False,
            "bodies_analysed": sorted(report.analysed["bodies"]),
            "configs_analysed": sorted(report.analysed["configs"]),
            "extractions": ctx.extractions,
            "per_rule": {k: {"obligations": v[0], "hold": v[1]} for k, v in sorted(by_rule.items())},
            "known_findings_matched": sorted(printed_known),
            "notes": report.notes,
        },
        "assumptions": assumptions,
        "wall_s": wall,
        "violations": len(new),
    }
    evdir = os.environ.get("VERIF_EVIDENCE_DIR", os.path.join(VERIF, "evidence"))
    os.makedirs(evdir, exist_ok=True)
    with open(os.path.join(evdir, "%s.json" % prop), "w") as f:
        json.dump(ev, f, indent=1, sort_keys=True)
    if explain_key is not None:
        hit = [v for v in viol if v["key"] == explain_key]
        if hit:
            print("EXPLAIN: %s still violated on the current tree: %s (%s)" % (explain_key, hit[0]["detail"], hit[0]["site"]))
        else:
            print("EXPLAIN: %s is not violated on the current tree" % explain_key)
    print("%s: %d obligation(s), %d violated (%d known), %.1fs" % (prop, len(report.obs), len(viol), len(viol) - len(new), wall))
    return 1 if new else 0
