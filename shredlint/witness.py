"""Compile-fail witnesses (thorough tier): rustdoc compiles the doctests of
/verif/probe; `compile_fail,E0xxx` blocks must fail with that code, their
`no_run` twins must compile.  Nothing of shred is executed."""
import os
import re
import shutil
import subprocess
import tempfile

from . import extract as X

_cache = {}


def run_witnesses():
    if "res" in _cache:
        return _cache["res"]
    probe = X.probe_dir()
    target = tempfile.mkdtemp(prefix="shred-witness-target.")
    env = dict(os.environ, CARGO_TARGET_DIR=target, CARGO_NET_OFFLINE="true", RUSTC_ICE="0")
    cmd = ["cargo", "+nightly", "test", "--doc", "--offline"]
    try:
        p = subprocess.run(cmd, cwd=probe, env=env, stdout=subprocess.PIPE, stderr=subprocess.STDOUT)
        text = p.stdout.decode(errors="replace")
    finally:
        shutil.rmtree(target, ignore_errors=True)
    res = {}
    for m in re.finditer(r"^test src/witness\.rs - witness::(W\d+) \(line \d+\) - (compile fail|compile) \.\.\. (\w+)", text, re.M):
        res.setdefault(m.group(1), {})["fail" if m.group(2) == "compile fail" else "twin"] = m.group(3)
    _cache["res"] = (res, text)
    return res, text


def check(report, rule, ids, config="default"):
    res, text = run_witnesses()
    if not res:
        report.ob(rule, "witness/run", False, "witness doctests did not run: %s" % text[-400:], config=config)
        return
    for w in ids:
        r = res.get(w, {})
        ok = r.get("fail") == "ok" and r.get("twin") == "ok"
        report.ob(rule, "witness/%s" % w, ok, "violating program is rejected by the compiler with the expected error code; its twin compiles" if ok else
                  "witness %s: compile_fail=%s twin=%s (a violating program type-checks, or the twin no longer compiles)" % (w, r.get("fail"), r.get("twin")), config=config)
